open Model
open Glue

(* The extracted list functions recurse once per byte; images of several hundred KiB need
   more than the default 8 MiB stack.  Re-execute once under a raised soft stack limit. *)
let () =
  if Array.length Sys.argv > 1 && Sys.getenv_opt "C17_STACK" = None then begin
    let cmd =
      Printf.sprintf "ulimit -s unlimited 2>/dev/null || ulimit -s 4000000 2>/dev/null; C17_STACK=1 OCAMLRUNPARAM=s=32M exec %s %s"
        (Filename.quote Sys.executable_name) (Filename.quote Sys.argv.(1)) in
    exit (Sys.command cmd)
  end

let hz = hex_of_z
let hb = hex_of_bytes
let b01 b = if b then "1" else "0"

let show_psp_entry (e : psp_entry) : string =
  String.concat "." [ hz e.pe_type; hz e.pe_subprogram; hz e.pe_romid; hz e.pe_size; hz e.pe_loc ]

let show_bios_entry (e : bios_entry) : string =
  String.concat "."
    [ hz e.be_type; hz e.be_region;
      b01 e.be_reset ^ b01 e.be_copy ^ b01 e.be_ro ^ b01 e.be_compressed;
      hz e.be_instance; hz e.be_subprogram; hz e.be_romid; hz e.be_size; hz e.be_src; hz e.be_dst ]

let show_table (se : 'e -> string) (t : 'e dir_table) : string =
  String.concat ","
    [ hz t.dt_cookie; hz t.dt_checksum; hz t.dt_total; hz t.dt_extra;
      hz (z_of_int (List.length t.dt_entries)) ]
  ^ ":" ^ String.concat ";" (List.map se t.dt_entries)

let show_located se (o : 'e dir_table located option) : string =
  match o with
  | None -> "nil"
  | Some ((t, off), len) -> hz off ^ "+" ^ hz len ^ "=" ^ show_table se t

let show_efs (e : efs) : string =
  String.concat ","
    [ hz e.efs_sig; hb e.efs_res1; hz e.efs_psp; hz e.efs_bios0; hz e.efs_bios1; hz e.efs_bios2;
      hz e.efs_res2; hz e.efs_bios3; hb e.efs_res3 ]

let show_fw (fw : psp_fw) : string =
  String.concat " "
    [ "ok"; hz fw.fw_efs_off; hz fw.fw_efs_len; show_efs fw.fw_efs;
      show_located show_psp_entry fw.fw_psp1; show_located show_psp_entry fw.fw_psp2;
      show_located show_bios_entry fw.fw_bios1; show_located show_bios_entry fw.fw_bios2 ]

(* the Firmware implementation: "img" = manifest.FirmwareImage, otherwise a base address *)
let fw_of (map : string) (img : z list) : psp_fw outcome =
  if map = "img" then parse_firmware img else parse_firmware_with (shifted_map (z_of_hex map)) img

let with_fw map img (k : psp_fw -> string) : string =
  match fw_of map img with
  | Ok fw -> k fw
  | Err e -> "nofw " ^ hz e
  | Panic _ -> "panic"
  | Fuel -> "hang"

let ok_bytes = obs_outcome (fun b -> "ok " ^ hb b)

let eval fn args : string option =
  match fn, args with
  | ("psp_checksum" | "bios_checksum"), [raw] ->
    Some (obs_outcome (fun v -> "ok " ^ hz v) (dir_checksum (bytes_of_hex raw)))
  | "psp_entry", [r] ->
    Some (obs_outcome (fun ((e, l), _) -> "ok " ^ show_psp_entry e ^ " " ^ hz l) (parse_psp_entry (bytes_of_hex r)))
  | "bios_entry", [r] ->
    Some (obs_outcome (fun ((e, l), _) -> "ok " ^ show_bios_entry e ^ " " ^ hz l) (parse_bios_entry (bytes_of_hex r)))
  | "psp_table", [d] ->
    Some (obs_outcome (fun (t, l) -> "ok " ^ hz l ^ " " ^ show_table show_psp_entry t) (parse_psp_table (bytes_of_hex d)))
  | "bios_table", [d] ->
    Some (obs_outcome (fun (t, l) -> "ok " ^ hz l ^ " " ^ show_table show_bios_entry t) (parse_bios_table (bytes_of_hex d)))
  | "find_psp", [img] ->
    Some (obs_outcome (fun ((t, off), l) -> "ok " ^ hz off ^ " " ^ hz l ^ " " ^ show_table show_psp_entry t)
            (find_psp_table (bytes_of_hex img)))
  | "find_bios", [img] ->
    Some (obs_outcome (fun ((t, off), l) -> "ok " ^ hz off ^ " " ^ hz l ^ " " ^ show_table show_bios_entry t)
            (find_bios_table (bytes_of_hex img)))
  | "efs", [img] ->
    Some (obs_outcome (fun ((e, off), l) -> "ok " ^ hz off ^ " " ^ hz l ^ " " ^ show_efs e) (find_efs (bytes_of_hex img)))
  | "phys2off", [len; addr] -> Some ("ok " ^ hz (phys_to_off (z_of_hex len) (z_of_hex addr)))
  | "parsefw", [map; img] -> Some (obs_outcome show_fw (fw_of map (bytes_of_hex img)))
  | "extract_psp", [map; img; level; id] ->
    let img = bytes_of_hex img in
    Some (with_fw map img (fun fw -> ok_bytes (extract_psp_entry fw img (z_of_hex level) (z_of_hex id))))
  | "extract_bios", [map; img; level; id; inst] ->
    let img = bytes_of_hex img in
    Some (with_fw map img (fun fw ->
        ok_bytes (extract_bios_entry fw img (z_of_hex level) (z_of_hex id) (z_of_hex inst))))
  | "patch_psp", [map; img; level; id; d] ->
    let img = bytes_of_hex img in
    Some (with_fw map img (fun fw ->
        ok_bytes (patch_psp_entry fw img (z_of_hex level) (z_of_hex id) (bytes_of_hex d))))
  | "patch_bios", [map; img; level; id; inst; d] ->
    let img = bytes_of_hex img in
    Some (with_fw map img (fun fw ->
        ok_bytes (patch_bios_entry fw img (z_of_hex level) (z_of_hex id) (z_of_hex inst) (bytes_of_hex d))))
  | "psb_enabled", [map; img] ->
    let img = bytes_of_hex img in
    Some (with_fw map img (fun fw -> obs_outcome (fun b -> "ok " ^ b01 b) (is_psb_enabled fw)))
  | "rootkey", [blob] ->
    Some (obs_outcome (fun (k : key) ->
        let valid = k.k_exponent <> [] && k.k_modulus <> [] in
        let pb = obs_outcome (fun (b : binding) -> hz b.pb_vendor ^ "." ^ hz b.pb_revision ^ "." ^ hz b.pb_model)
            (get_platform_binding k) in
        let sf = obs_outcome (fun (f : features) -> b01 f.sf_anti_rollback ^ b01 f.sf_amd_key_use ^ b01 f.sf_debug_unlock)
            (get_security_features k) in
        String.concat " "
          [ "ok"; "id=" ^ hb k.k_id;
            "usage=" ^ (if valid then hz k.k_usage else "?");
            "sig=" ^ (if valid then hz (zlen k.k_modulus) else "inv");
            "pb=" ^ pb; "sf=" ^ sf ])
        (new_root_key (bytes_of_hex blob)))
  | _ -> None

let () = run_file (fun fn args -> eval fn args) Sys.argv.(1)
