let () = Glue.run_file Editrun.eval_edit Sys.argv.(1)
