open Model
open Glue

(* sig vmaj vmin base size name nareas count {off size name flags} -> fmap, rest *)
let parse_map (a : string list) : fmap * string list =
  match a with
  | sg :: vmaj :: vmin :: base :: size :: name :: nareas :: count :: rest ->
    let h = { h_sig = bytes_of_hex sg; h_vmaj = z_of_hex vmaj; h_vmin = z_of_hex vmin;
              h_base = z_of_hex base; h_size = z_of_hex size; h_name = bytes_of_hex name;
              h_nareas = z_of_hex nareas } in
    let n = int_of_z (z_of_hex count) in
    let rec go k l acc =
      if k = 0 then (List.rev acc, l) else
        match l with
        | off :: sz :: nm :: fl :: r ->
          go (k - 1) r ({ a_off = z_of_hex off; a_size = z_of_hex sz; a_name = bytes_of_hex nm;
                          a_flags = z_of_hex fl } :: acc)
        | _ -> failwith "bad map args" in
    let (ars, rest) = go n rest [] in
    ({ f_hdr = h; f_areas = ars }, rest)
  | _ -> failwith "bad map args"

let show_map (m : fmap) : string =
  let h = m.f_hdr in
  String.concat " "
    ([ hex_of_bytes h.h_sig; hex_of_z h.h_vmaj; hex_of_z h.h_vmin; hex_of_z h.h_base;
       hex_of_z h.h_size; hex_of_bytes h.h_name; hex_of_z h.h_nareas;
       hex_of_z (z_of_int (List.length m.f_areas)) ]
     @ List.concat_map (fun a -> [ hex_of_z a.a_off; hex_of_z a.a_size; hex_of_bytes a.a_name;
                                   hex_of_z a.a_flags ]) m.f_areas)

let eval fn args : string option =
  match fn, args with
  | "read", [img] ->
    Some (obs_outcome (fun (m, st) -> "ok " ^ hex_of_z st ^ " " ^ show_map m) (read (bytes_of_hex img)))
  | "write", img :: rest ->
    let (m, r) = parse_map rest in
    let start = z_of_hex (List.hd r) in
    Some ("ok " ^ hex_of_bytes (write (bytes_of_hex img) m start))
  | "readarea", img :: rest ->
    let (m, r) = parse_map rest in
    Some (obs_outcome (fun b -> "ok " ^ hex_of_bytes b) (read_area m (bytes_of_hex img) (z_of_hex (List.hd r))))
  | "writearea", img :: rest ->
    let (m, r) = parse_map rest in
    (match r with
     | [i; d] -> Some (obs_outcome (fun b -> "ok " ^ hex_of_bytes b)
                         (write_area m (bytes_of_hex img) (z_of_hex i) (bytes_of_hex d)))
     | _ -> failwith "writearea args")
  | "checksum", img :: rest ->
    let (m, _) = parse_map rest in
    Some (obs_outcome (fun b -> "ok " ^ hex_of_bytes b) (checksum_input m (bytes_of_hex img)))
  | "jsonrt", [img] ->
    (match json_roundtrip (bytes_of_hex img) with
     | Some o -> Some (obs_outcome (fun b -> "ok " ^ hex_of_bytes b) o)
     | None -> None)   (* names with bytes >= 0x80: Go's UTF-8 decoding is outside the model *)
  | _ -> None

let () = run_file (fun fn args -> eval fn args) Sys.argv.(1)
