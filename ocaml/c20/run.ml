open Model
open Glue

let show_bytes_list (l : z list list) : string = String.concat " " (List.map hex_of_bytes l)

let class_obs (c : z) : string =
  match int_of_z c with
  | 0 -> "ok"
  | 1 -> "err"
  | 2 -> "panic"
  | 3 -> "hang"
  | _ -> "harness-error unknown-structure"

let name_of_string (s : string) : z list =
  List.init (String.length s) (fun i -> z_of_int (Char.code s.[i]))

let show_mc (m : mc) : string =
  "ok " ^ hex_of_bytes m.mc_hdr ^ " " ^ hex_of_bytes m.mc_data ^ " " ^ hex_of_bytes m.mc_ext ^ " "
  ^ hex_of_z (z_of_int (List.length m.mc_sigs)) ^ " " ^ show_bytes_list m.mc_sigs

let show_me ((h, es) : me_hdr * z list list) : string =
  String.concat " "
    ([ "ok"; (if h.me_legacy then "1" else "0"); hex_of_bytes h.me_marker; hex_of_z h.me_num;
       hex_of_z h.me_hver; hex_of_z h.me_ever; hex_of_z h.me_hlen; hex_of_z h.me_hck;
       hex_of_z h.me_ticks; hex_of_z h.me_tokens; hex_of_z h.me_uma; hex_of_z h.me_flags ]
     @ List.map hex_of_z h.me_fitc
     @ [ hex_of_z (z_of_int (List.length es)); hex_of_bytes (List.concat es) ])

let show_fsp (h : fsp_hdr) : string =
  String.concat " "
    [ "ok"; hex_of_bytes h.fsp_sig; hex_of_z h.fsp_hlen; hex_of_z h.fsp_spec; hex_of_z h.fsp_rev;
      hex_of_z h.fsp_imgrev; hex_of_bytes h.fsp_imgid; hex_of_z h.fsp_imgsize; hex_of_z h.fsp_imgbase;
      hex_of_z h.fsp_imgattr; hex_of_z h.fsp_compattr; hex_of_z h.fsp_cfgoff; hex_of_z h.fsp_cfgsize;
      hex_of_z h.fsp_tempraminit; hex_of_z h.fsp_notify; hex_of_z h.fsp_meminit;
      hex_of_z h.fsp_tempramexit; hex_of_z h.fsp_siliconinit; hex_of_z h.fsp_multiphase;
      hex_of_z h.fsp_extrev ]

let show_sacm (s : sacm) : string =
  "ok " ^ hex_of_z s.sacm_ver ^ " " ^ hex_of_z s.sacm_hdr_size ^ " "
  ^ hex_of_z (z_of_int (List.length s.sacm_user)) ^ " " ^ hex_of_bytes s.sacm_user

let eval fn args : string option =
  match fn, args with
  | "mc", [b] -> Some (obs_outcome show_mc (mc_parse (bytes_of_hex b)))
  | "me", [b] -> Some (obs_outcome show_me (me_parse (bytes_of_hex b)))
  | "fsp", [b] -> Some (obs_outcome show_fsp (fsp_parse (bytes_of_hex b)))
  | "sacm", [b] -> Some (obs_outcome show_sacm (sacm_parse (bytes_of_hex b)))
  | "sacmsize", [b] -> Some (obs_outcome (fun v -> "ok " ^ hex_of_z v) (sacm_parse_size (bytes_of_hex b)))
  | "cls_fmap", [b] -> Some (class_obs (c20_fmap (bytes_of_hex b)))
  | "cls_fit_table", [b] -> Some (class_obs (c20_fit_table (bytes_of_hex b)))
  | "cls_fit_entries", [b] -> Some (class_obs (c20_fit_entries (bytes_of_hex b)))
  | "cls_cbfs", [b] -> Some (class_obs (c20_cbfs (bytes_of_hex b)))
  | "cls_psp_table", [b] -> Some (class_obs (c20_psp_table (bytes_of_hex b)))
  | "cls_bios_table", [b] -> Some (class_obs (c20_bios_table (bytes_of_hex b)))
  | "cls_find_psp", [b] -> Some (class_obs (c20_find_psp (bytes_of_hex b)))
  | "cls_find_bios", [b] -> Some (class_obs (c20_find_bios (bytes_of_hex b)))
  | "cls_efs", [b] -> Some (class_obs (c20_efs (bytes_of_hex b)))
  | "cls_rootkey", [b] -> Some (class_obs (c20_rootkey (bytes_of_hex b)))
  | "cls_apcb", [b] -> Some (class_obs (c20_apcb (bytes_of_hex b)))
  | "cls_zlib_frame", [b] -> Some (class_obs (c20_zlib_frame (bytes_of_hex b)))
  | "cls_manifest", [nm; b] -> Some (class_obs (c20_manifest (name_of_string nm) (bytes_of_hex b)))
  | _ -> None

let () = run_file (fun fn args -> eval fn args) Sys.argv.(1)
