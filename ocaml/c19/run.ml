open Model
open Glue

let show_entries (es : entry list) : string =
  String.concat " "
    (hex_of_z (z_of_int (List.length es))
     :: List.map (fun e ->
         String.concat "," [ hex_of_bytes e.e_name; hex_of_z e.e_type; hex_of_z e.e_off;
                             hex_of_z e.e_size; hex_of_z e.e_comp ]) es)

(* split a gap into 16-byte slots (a shorter last slot is kept: wf then fails) *)
let rec slots (b : z list) : z list list =
  match b with
  | [] -> []
  | _ ->
    let rec take k l acc = if k = 0 then (List.rev acc, l) else
        match l with [] -> (List.rev acc, []) | x :: r -> take (k - 1) r (x :: acc) in
    let (s, rest) = take 16 b [] in
    s :: slots rest

(* count {gap name npad type nattrs {tag payload} data pad} *)
let parse_arch (a : string list) : arec list * string list =
  match a with
  | count :: rest ->
    let n = int_of_z (z_of_hex count) in
    let rec attrs k l acc =
      if k = 0 then (List.rev acc, l) else
        match l with
        | tag :: pl :: r -> attrs (k - 1) r ((z_of_hex tag, bytes_of_hex pl) :: acc)
        | _ -> failwith "bad attr args" in
    let rec go k l acc =
      if k = 0 then (List.rev acc, l) else
        match l with
        | gap :: name :: npad :: typ :: na :: r ->
          let (ats, r) = attrs (int_of_z (z_of_hex na)) r [] in
          (match r with
           | data :: pad :: r ->
             go (k - 1) r ({ r_gap = slots (bytes_of_hex gap); r_name = bytes_of_hex name;
                             r_npad = z_of_hex npad; r_type = z_of_hex typ; r_attrs = ats;
                             r_data = bytes_of_hex data; r_pad = bytes_of_hex pad } :: acc)
           | _ -> failwith "bad rec args")
        | _ -> failwith "bad rec args" in
    go n rest []
  | _ -> failwith "bad archive args"

let eval fn args : string option =
  match fn, args with
  | "newimage", [img] ->
    Some (obs_outcome (fun im -> "ok " ^ show_entries (listing im)) (new_image (bytes_of_hex img)))
  | "filedata", [img; i] ->
    Some (obs_outcome (fun im ->
        match file_data im (z_of_hex i) with
        | Some (a, d) -> "ok " ^ hex_of_bytes a ^ " " ^ hex_of_bytes d
        | None -> "none") (new_image (bytes_of_hex img)))
  | "writeback", [img; old] ->
    (* old = "none": the destination does not exist; otherwise its previous content *)
    let o = if old = "none" then None else Some (bytes_of_hex old) in
    Some (obs_outcome (fun im -> "ok " ^ hex_of_bytes (write_file o im)) (new_image (bytes_of_hex img)))
  | "spec", _ ->
    let (a, _) = parse_arch args in
    Some ("ok " ^ (if wf_archive a then "wf" else "not-wf") ^ " " ^ hex_of_bytes (embed a) ^ " "
          ^ show_entries (records a))
  | _ -> None

let () = run_file (fun fn args -> eval fn args) Sys.argv.(1)
