let () = Glue.run_file Grammarrun.eval_c01 Sys.argv.(1)
