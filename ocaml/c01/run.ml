let () = Glue.run_file (fun fn args ->
    match fn with
    | "fsave" | "fbios" -> Flashrun.eval fn args
    | _ -> Grammarrun.eval_c01 fn args) Sys.argv.(1)
