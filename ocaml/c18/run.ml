open Model
open Glue

let show_token (t : token) : string =
  String.concat ":" [ hex_of_z t.tk_id; hex_of_z t.tk_prio; hex_of_z t.tk_board;
                      hex_of_z t.tk_kind; hex_of_z t.tk_val ]

let show_tokens (l : token list) : string =
  match l with
  | [] -> "ok -"
  | _ -> "ok " ^ String.concat "," (List.map show_token l)

(* the buffer after a successful call is compared on the header fields the property and the parser speak of
   (Signature, SizeOfHeader: 0..5; SizeOfAPCB: 8..11; Signature2: 32..35; SignatureEnding: 124..127) and on
   everything behind the 128-byte header; same projection as harness/cmd/c18 project() *)
let rec drop n l = if n <= 0 then l else match l with [] -> [] | _ :: r -> drop (n - 1) r
let rec take n l = if n <= 0 then [] else match l with [] -> [] | x :: r -> x :: take (n - 1) r
let project (b : z list) : z list =
  if List.length b < 128 then b
  else take 6 b @ take 4 (drop 8 b) @ take 4 (drop 32 b) @ take 4 (drop 124 b) @ drop 128 b

(* UpsertToken: the buffer afterwards is part of the observation also when an error is returned *)
let show_upsert (o : (z list * z) outcome) : string =
  match o with
  | Ok (b, e) ->
    if int_of_z e = 0 then "ok " ^ hex_of_bytes (project b)
    else "err " ^ hex_of_z e ^ " " ^ hex_of_bytes b
  | Err e -> "err " ^ hex_of_z e
  | Panic _ -> "panic"
  | Fuel -> "hang"

let eval fn args : string option =
  match fn, args with
  | "parse", [img] -> Some (obs_outcome show_tokens (parse_tokens (bytes_of_hex img)))
  | "upsert", [k; pm; bm; kind; v; img] ->
    Some (show_upsert (upsert (z_of_hex k) (z_of_hex pm) (z_of_hex bm) (z_of_hex kind) (z_of_hex v)
                         (bytes_of_hex img)))
  (* the specification evaluated on the abstraction: abs, upsert_blob, re-encode *)
  | "spec_upsert", [k; pm; bm; kind; v; img] ->
    let b = bytes_of_hex img in
    (match dec_blob b with
     | None -> Some "notwf"
     | Some s ->
       let (s', e) = upsert_blob (z_of_hex k) (z_of_hex pm) (z_of_hex bm) (z_of_hex kind) (z_of_hex v) s in
       Some (show_upsert (Ok (enc_blob s', e))))
  (* the listing computed from the abstraction *)
  | "spec_parse", [img] ->
    let b = bytes_of_hex img in
    (match dec_blob b with
     | None -> Some "notwf"
     | Some s -> Some (obs_outcome show_tokens (show_all (all_tokens s.bl_groups))))
  | _ -> None

let () = run_file (fun fn args -> eval fn args) Sys.argv.(1)
