From Coq Require Import ZArith Lia Bool.
Open Scope bool_scope.
Open Scope Z_scope.

Lemma lxor_low_ones : forall lo L, 0 < L -> 0 <= lo < 2^L ->
  Z.lxor lo (Z.ones L) = Z.ones L - lo.
Proof.
  intros lo L HL Hlo.
  assert (Hd : Z.ldiff lo (Z.ones L) = 0).
  { apply Z.ldiff_ones_r_low; [lia|].
    destruct (Z.eq_dec lo 0) as [->|Hn]; [simpl; lia|].
    assert (0 < lo) by lia. apply (proj1 (Z.log2_lt_pow2 lo L H)). lia. }
  rewrite Z.sub_nocarry_ldiff by exact Hd.
  apply Z.bits_inj'. intros n Hn.
  rewrite Z.lxor_spec, Z.ldiff_spec.
  assert (Hb : Z.testbit lo n && negb (Z.testbit (Z.ones L) n) = false).
  { rewrite <- Z.ldiff_spec, Hd. apply Z.bits_0. }
  destruct (Z.testbit lo n), (Z.testbit (Z.ones L) n); simpl in *; congruence.
Qed.

Lemma lxor_ones_split : forall w L, 0 < L -> 0 <= w ->
  Z.lxor w (Z.ones L) = (w / 2^L) * 2^L + (Z.ones L - w mod 2^L).
Proof.
  intros w L HL Hw.
  assert (Hp : 0 < 2^L) by (apply Z.pow_pos_nonneg; lia).
  pose proof (Z.mod_pos_bound w (2^L) Hp) as Hm.
  set (lo := w mod 2^L) in *. set (hi := w / 2^L).
  assert (Hx : 0 <= Z.ones L - lo < 2^L) by (rewrite Z.ones_equiv; lia).
  apply Z.bits_inj'. intros n Hn.
  rewrite Z.lxor_spec.
  destruct (Z_lt_le_dec n L) as [Hlt|Hge].
  - rewrite Z.ones_spec_low by lia.
    assert (E1 : Z.testbit w n = Z.testbit lo n).
    { unfold lo. rewrite Z.mod_pow2_bits_low by lia. reflexivity. }
    assert (E2 : Z.testbit (hi * 2^L + (Z.ones L - lo)) n = Z.testbit (Z.ones L - lo) n).
    { rewrite <- (Z.mod_pow2_bits_low (hi * 2^L + (Z.ones L - lo)) L n) by lia.
      rewrite Z.add_comm, Z.mod_add by lia.
      rewrite Z.mod_small by lia. reflexivity. }
    rewrite E1, E2.
    rewrite <- (lxor_low_ones lo L) by lia.
    rewrite Z.lxor_spec, Z.ones_spec_low by lia. reflexivity.
  - rewrite Z.ones_spec_high by lia. rewrite Bool.xorb_false_r.
    replace n with ((n - L) + L) by lia.
    rewrite <- !Z.div_pow2_bits by lia.
    f_equal. fold hi.
    rewrite Z.div_add_l by lia.
    rewrite (Z.div_small (Z.ones L - lo)) by lia. lia.
Qed.

Definition M := 2^32.
Definition byte_at (sh w : Z) := (w / 2^sh) mod 256.


Lemma mod_of_mod_mul : forall x B K, 0 < B -> 0 < K -> (x mod (B*K)) mod B = x mod B.
Proof.
  intros x B K HB HK. rewrite Z.rem_mul_r by lia.
  rewrite (Z.mul_comm B ((x / B) mod K)), Z.mod_add by lia. apply Z.mod_mod. lia.
Qed.

(* Lemma A: low L bits of the re-encoded word are the complement of v's low L bits *)
Lemma sh_step_low : forall v cur B K, 0 < B -> 0 < K -> 0 <= v ->
  let Mw := B*K in
  let w1 := (v + cur) mod Mw in
  forall hi, (* hi*B + (B-1 - w1 mod B) is the xor-ed word *)
  ((hi * B + (B - 1 - w1 mod B)) + cur) mod Mw mod B = B - 1 - v mod B.
Proof.
  intros v cur B K HB HK Hv Mw w1 hi.
  unfold Mw. rewrite mod_of_mod_mul by lia.
  unfold w1, Mw. rewrite mod_of_mod_mul by lia.
  (* goal: (hi*B + (B-1-(v+cur) mod B) + cur) mod B = B-1-v mod B *)
  replace (hi * B + (B - 1 - (v + cur) mod B) + cur)
     with ((B - 1 - (v + cur) mod B + cur) + hi * B) by ring.
  rewrite Z.mod_add by lia.
  pose proof (Z.div_mod (v+cur) B ltac:(lia)) as E1.
  pose proof (Z.mod_pos_bound (v+cur) B HB) as B1.
  pose proof (Z.div_mod v B ltac:(lia)) as E2.
  pose proof (Z.mod_pos_bound v B HB) as B2.
  set (r := (v+cur) mod B) in *. set (q := (v+cur)/B) in *.
  set (r2 := v mod B) in *. set (q2 := v / B) in *.
  replace (B - 1 - r + cur) with ((B - 1 - r2) + (q - q2) * B) by nia.
  rewrite Z.mod_add by lia. apply Z.mod_small. lia.
Qed.

Lemma byte_at_low : forall x P, 0 < P -> (x / P) mod 256 = (x mod (P*256)) / P.
Proof.
  intros x P HP. rewrite Z.rem_mul_r by lia.
  rewrite Z.add_comm, (Z.mul_comm P ((x / P) mod 256)), Z.div_add_l by lia.
  rewrite (Z.div_small (x mod P)) by (apply Z.mod_pos_bound; lia). lia.
Qed.

Lemma compl_div : forall y P, 0 < P -> 0 <= y < P*256 -> (P*256 - 1 - y) / P = 255 - y / P.
Proof.
  intros y P HP Hy.
  pose proof (Z.div_mod y P ltac:(lia)) as E. pose proof (Z.mod_pos_bound y P HP) as Bd.
  set (a := y / P) in *. set (b := y mod P) in *.
  replace (P*256 - 1 - y) with ((255 - a) * P + (P - 1 - b)) by nia.
  rewrite Z.div_add_l by lia. rewrite Z.div_small by lia. lia.
Qed.

Lemma sh_step_byte : forall v cur sh, 0 <= v < M -> 0 <= cur < M ->
  (sh = 0 \/ sh = 8 \/ sh = 16 \/ sh = 24) ->
  let L := sh + 8 in
  let w1 := (v + cur) mod M in
  let w2 := (Z.lxor w1 (Z.ones L) + cur) mod M in
  byte_at sh w2 = 255 - byte_at sh v.
Proof.
  intros v cur sh Hv Hc Hsh L w1 w2.
  assert (Hw1 : 0 <= w1 < M) by (apply Z.mod_pos_bound; reflexivity).
  set (P := 2^sh). set (B := P * 256). set (K := 2^(24 - sh)).
  assert (HP : 0 < P) by (apply Z.pow_pos_nonneg; lia).
  assert (HK : 0 < K) by (apply Z.pow_pos_nonneg; lia).
  assert (HB : 2^L = B).
  { unfold B, P, L. rewrite Z.pow_add_r by lia. reflexivity. }
  assert (HM : M = B * K).
  { unfold B, P, K, M. rewrite <- Z.mul_assoc, (Z.mul_comm 256), Z.mul_assoc, <- Z.pow_add_r by lia.
    replace (sh + (24 - sh)) with 24 by lia. reflexivity. }
  unfold byte_at. rewrite !byte_at_low by exact HP. fold B.
  unfold w2. rewrite lxor_ones_split by lia. rewrite Z.ones_equiv, HB.
  replace (Z.pred B - w1 mod B) with (B - 1 - w1 mod B) by lia.
  unfold w1. rewrite HM.
  rewrite (sh_step_low v cur B K) by lia.
  assert (HBpos : 0 < B) by (unfold B; lia).
  apply compl_div; [exact HP|]. pose proof (Z.mod_pos_bound v B HBpos) as Hb. unfold B in Hb |- *. exact Hb.
Qed.
Print Assumptions sh_step_byte.
