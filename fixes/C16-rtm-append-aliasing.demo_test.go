package psb_test

import (
	"bytes"
	"crypto"
	"crypto/rand"
	"crypto/rsa"
	"crypto/sha256"
	"encoding/binary"
	"math/big"
	"testing"

	amd_manifest "github.com/linuxboot/fiano/pkg/amd/manifest"
	"github.com/linuxboot/fiano/pkg/amd/psb"
)

type rtmFW struct{ img []byte }

func (f rtmFW) ImageBytes() []byte                 { return f.img }
func (f rtmFW) PhysAddrToOffset(a uint64) uint64   { return a - 0xfffa0000 }
func (f rtmFW) OffsetToPhysAddr(off uint64) uint64 { return off + 0xfffa0000 }

func le(v *big.Int, n int) []byte {
	be := v.FillBytes(make([]byte, n))
	out := make([]byte, n)
	for i := range be {
		out[n-1-i] = be[i]
	}
	return out
}
func rev(b []byte) []byte {
	o := make([]byte, len(b))
	for i := range b {
		o[len(b)-1-i] = b[i]
	}
	return o
}
func u32(v uint32) []byte { b := make([]byte, 4); binary.LittleEndian.PutUint32(b, v); return b }
func u64(v uint64) []byte { b := make([]byte, 8); binary.LittleEndian.PutUint64(b, v); return b }
func pss(t *testing.T, k *rsa.PrivateKey, d []byte) []byte {
	h := sha256.Sum256(d)
	s, err := rsa.SignPSS(rand.Reader, k, crypto.SHA256, h[:], &rsa.PSSOptions{SaltLength: rsa.PSSSaltLengthEqualsHash})
	if err != nil {
		t.Fatal(err)
	}
	return s
}
func keyBody(id, cert []byte, usage uint32, pub *rsa.PublicKey) []byte {
	var b bytes.Buffer
	b.Write(u32(1))
	b.Write(id)
	b.Write(cert)
	b.Write(u32(usage))
	b.Write(make([]byte, 16))
	b.Write(u32(2048))
	b.Write(u32(2048))
	b.Write(le(big.NewInt(int64(pub.E)), 256))
	b.Write(le(pub.N, 256))
	return b.Bytes()
}

// A correctly signed RTM volume must validate, also when it is not the last thing in the image,
// and validating must not change the image.
func TestRTMVolumeFollowedByOtherEntries(t *testing.T) {
	amd, _ := rsa.GenerateKey(rand.Reader, 2048)
	oem, _ := rsa.GenerateKey(rand.Reader, 2048)
	amdID, ablID, oemID := bytes.Repeat([]byte{0xA1}, 16), bytes.Repeat([]byte{0xB2}, 16), bytes.Repeat([]byte{0xC3}, 16)
	amdKey := keyBody(amdID, amdID, 0, &amd.PublicKey)
	// key database: PSP header (uncompressed convention) + key database header, no keys, signed by the AMD key
	hdr := make([]byte, 0x100)
	binary.LittleEndian.PutUint32(hdr[20:], 80)            // SizeSigned
	copy(hdr[56:], amdID)                                  // SignatureParameters
	binary.LittleEndian.PutUint32(hdr[108:], 0x100+80+256) // SizeImage
	keydb := append(hdr, make([]byte, 80)...)
	keydb = append(keydb, pss(t, amd, keydb)...)
	abl := keyBody(ablID, amdID, 0, &oem.PublicKey)
	abl = append(abl, rev(pss(t, amd, abl))...)
	oemTok := keyBody(oemID, amdID, 8, &oem.PublicKey)
	oemTok = append(oemTok, rev(pss(t, amd, oemTok))...)
	rtm := bytes.Repeat([]byte{0x5A}, 200)

	// layout: EFS, PSP directory, BIOS directory, keys, RTM volume directly followed by its signature
	off := map[string]int{}
	cur := 74
	for _, p := range []struct {
		n string
		l int
	}{{"pdir", 16 + 3*16}, {"bdir", 16 + 3*24}, {"amd", len(amdKey)}, {"keydb", len(keydb)}, {"abl", len(abl)}, {"oem", len(oemTok)}, {"rtm", len(rtm)}, {"sig", 256}} {
		off[p.n] = cur
		cur += p.l
	}
	img := make([]byte, cur+64)
	binary.LittleEndian.PutUint32(img, amd_manifest.EmbeddedFirmwareStructureSignature)
	binary.LittleEndian.PutUint32(img[20:], uint32(off["pdir"]))
	binary.LittleEndian.PutUint32(img[24:], uint32(off["bdir"]))
	pdir := append(u32(amd_manifest.PSPDirectoryTableCookie), u32(0)...)
	pdir = append(pdir, u32(3)...)
	pdir = append(pdir, u32(0)...)
	for _, e := range []struct {
		t uint8
		n string
		l int
	}{{0x00, "amd", len(amdKey)}, {0x50, "keydb", len(keydb)}, {0x0A, "abl", len(abl)}} {
		pdir = append(pdir, e.t, 0, 0, 0)
		pdir = append(pdir, u32(uint32(e.l))...)
		pdir = append(pdir, u64(uint64(off[e.n]))...)
	}
	bdir := append(u32(amd_manifest.BIOSDirectoryTableCookie), u32(0)...)
	bdir = append(bdir, u32(3)...)
	bdir = append(bdir, u32(0)...)
	for _, e := range []struct {
		t uint8
		n string
		l int
	}{{0x05, "oem", len(oemTok)}, {0x62, "rtm", len(rtm)}, {0x07, "sig", 256}} {
		bdir = append(bdir, e.t, 0, 0, 0)
		bdir = append(bdir, u32(uint32(e.l))...)
		bdir = append(bdir, u64(uint64(off[e.n]))...)
		bdir = append(bdir, u64(0)...)
	}
	sig := rev(pss(t, oem, append(append([]byte{}, rtm...), bdir...)))
	for n, b := range map[string][]byte{"pdir": pdir, "bdir": bdir, "amd": amdKey, "keydb": keydb, "abl": abl, "oem": oemTok, "rtm": rtm, "sig": sig} {
		copy(img[off[n]:], b)
	}
	before := append([]byte{}, img...)
	fw, err := amd_manifest.NewAMDFirmware(rtmFW{img: img})
	if err != nil {
		t.Fatal(err)
	}
	for call := 1; call <= 2; call++ {
		res, err := psb.ValidateRTM(fw, 1)
		if err != nil {
			t.Fatalf("call %d: %v", call, err)
		}
		if res.Error() != nil {
			t.Errorf("call %d: correctly signed RTM volume refused: %v", call, res.Error())
		}
		if !bytes.Equal(before, img) {
			t.Fatalf("call %d: ValidateRTM changed the firmware image", call)
		}
	}
}
